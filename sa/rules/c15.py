"""C15 - n_jobs bounds concurrency; nesting never multiplies worker processes."""

import ast

from ..cfg import cfg_of
from ..core import (
    assigns_to, body_walk, call_attr, call_name, calls_in, const_value, dotted, enclosing_stmt, is_const, kwarg,
    nodes_of_type, stores_to, unparse, walk_local, names_in,
)
from .par import PAR, BK, F, _single_defs, lower_bound

PROPERTY = "C15"
CTXF = "joblib/externals/loky/backend/context.py"
EXE = "joblib/executor.py"
RE = "joblib/externals/loky/reusable_executor.py"
EXPLANATION = (
    "Static decision of the structural clauses of C15: in every effective_n_jobs sibling the zero test (ValueError) "
    "dominates every return, the negative branch is max(cpu_count()+1+n_jobs, k>=1), the positive branch returns "
    "n_jobs unchanged, every other return is the literal 1; n_jobs == 1 runs in the caller before any submit and pool "
    "backends fall back to SequentialBackend; every pool/executor is sized by the value effective_n_jobs returned "
    "in the same configure; every return of cpu_count has integer lower bound >= 1 and the default return is "
    "max(min(os count, min(affinity, cgroup, LOKY_MAX_CPU_COUNT)), 1); nesting table (level+1, >1 sequential else "
    "threads; workers run their items inside parallel_config(nested backend)); daemon / non-main-thread guards "
    "return 1. The real concurrency inside ThreadPool/multiprocessing.Pool/loky is trusted, not decided."
    ' Every answer of _cpu_count_user is the minimum evaluated at the time of the call (no remembered value); the sequential path of __call__ and the fallback in configure() agree on the RESOLVED n_jobs.'
)
ASSUMPTIONS = [
    "ThreadPool(n) / MemmappingPool(n) / loky executor(max_workers=n) run at most n tasks at once",
    "os.sched_getaffinity / os.cpu_count semantics",
]

SIBLINGS = ["SequentialBackend.effective_n_jobs", "PoolManagerMixin.effective_n_jobs",
            "MultiprocessingBackend.effective_n_jobs", "LokyBackend.effective_n_jobs"]


def _flat_add(e):
    if isinstance(e, ast.BinOp) and isinstance(e.op, ast.Add):
        return _flat_add(e.left) + _flat_add(e.right)
    return [unparse(e)]


def _is_zero_test(t, p):
    return isinstance(t, ast.Compare) and len(t.ops) == 1 and isinstance(t.ops[0], ast.Eq) and (
        (dotted(t.left) == p and const_value(t.comparators[0]) == 0) or (dotted(t.comparators[0]) == p and const_value(t.left) == 0))


def resolve(ctx):
    for q in SIBLINGS:
        f = F(ctx, q, BK)
        g = cfg_of(f)
        p = f.args.args[1].arg
        zt = [n for n in nodes_of_type(f, ast.If) if _is_zero_test(n.test, p) and any(isinstance(s, ast.Raise) and call_name(s.exc) == "ValueError" for s in n.body)]
        rets = nodes_of_type(f, ast.Return)
        ctx.need(rets, "%s has no return" % q)
        delegating = [r for r in rets if isinstance(r.value, ast.Call) and call_attr(r.value) == "effective_n_jobs" and "super" in unparse(r.value.func)]
        for r in rets:
            conds = g.conditions_at(g.nodes_of(r))
            ok = bool(zt) and g.every_path_to(g.nodes_of(r), g.nodes_of_all(zt))
            ctx.check(ok, r, "%s: the `n_jobs == 0 => ValueError` test dominates this return" % q,
                      "%s: `%s` is reached without testing n_jobs == 0 first: n_jobs=0 is silently accepted on this path (%s)" % (
                          q, unparse(r), ", ".join("%s is %s" % (unparse(t, 50), pol) for (_, t, pol) in conds[-2:]) or "unconditionally"))
        # classify returns
        for r in rets:
            v = r.value
            if r in delegating:
                ctx.ok(r, "%s delegates the arithmetic to its base class" % q)
                continue
            if is_const(v, 1):
                continue
            if dotted(v) == p:
                # value of p: either untouched (positive) or re-bound in the negative branch
                for a in nodes_of_type(f, ast.Assign):
                    if p in stores_to(a):
                        conds = g.conditions_at(g.nodes_of(a))
                        neg = any(unparse(t) == "%s < 0" % p and pol for (_, t, pol) in conds)
                        ctx.check(neg, a, "%s: n_jobs is re-bound only in the negative branch" % q, "%s: n_jobs re-bound outside the `n_jobs < 0` branch: a positive n_jobs is not the bound any more" % q)
                        mv = a.value
                        okm = isinstance(mv, ast.Call) and call_name(mv) == "max" and len(mv.args) == 2
                        if okm:
                            k = [x for x in mv.args if isinstance(x, ast.Constant)]
                            e = [x for x in mv.args if not isinstance(x, ast.Constant)]
                            okm = len(k) == 1 and isinstance(k[0].value, int) and k[0].value >= 1 and len(e) == 1 and sorted(_flat_add(e[0])) == sorted(["cpu_count()", "1", p])
                        ctx.check(okm, a, "%s: negative n_jobs => max(cpu_count() + 1 + n_jobs, k>=1)" % q, "%s: negative branch computes %s" % (q, unparse(mv)))
                ctx.ok(r, "%s: positive n_jobs is returned unchanged" % q)
                continue
            # the negative-branch formula returned directly instead of through a re-binding of n_jobs
            if isinstance(v, ast.Call) and call_name(v) == "max" and len(v.args) == 2:
                k = [x for x in v.args if isinstance(x, ast.Constant)]
                e = [x for x in v.args if not isinstance(x, ast.Constant)]
                okm = len(k) == 1 and isinstance(k[0].value, int) and k[0].value >= 1 and len(e) == 1 and sorted(_flat_add(e[0])) == sorted(["cpu_count()", "1", p])
                neg = ("%s < 0" % p, True) in g.fact_set(g.nodes_of(r))
                ctx.check(okm and neg, r, "%s: negative n_jobs => max(cpu_count() + 1 + n_jobs, k>=1), returned in the negative branch" % q,
                          "%s: returns %s %s" % (q, unparse(v), "outside the `n_jobs < 0` branch" if okm else "(not max(cpu_count() + 1 + n_jobs, k>=1))"))
                continue
            ctx.bad(r, "%s: unexpected return value %s (neither 1, n_jobs nor the base class result)" % (q, unparse(v)))
    # the two process backends: nesting guards
    for q in ("MultiprocessingBackend.effective_n_jobs", "LokyBackend.effective_n_jobs"):
        f = F(ctx, q, BK)
        g = cfg_of(f)
        ones = [r for r in nodes_of_type(f, ast.Return) if is_const(r.value, 1)]
        seen = set()
        for r in ones:
            for (_, t, pol) in g.conditions_at(g.nodes_of(r)):
                u = unparse(t)
                if u == "mp.current_process().daemon" and pol:
                    seen.add("daemon")
                if u == "not (self.in_main_thread() or self.nesting_level == 0)" and pol:
                    seen.add("thread")
        ctx.check("daemon" in seen, f, "%s returns 1 inside a daemonic process (no grand-children)" % q, "%s lost its daemon guard" % q)
        ctx.check("thread" in seen, f, "%s returns 1 in a non-main thread below nesting level 0" % q, "%s lost its non-main-thread guard" % q)
        # ... and nothing else is answered before the guards were passed: every path to a return that is not `1` (the
        # requested, or the resolved negative, n_jobs, or the base class's answer) takes the FALSE edge of both guards
        guards = [n for n in nodes_of_type(f, ast.If) if unparse(n.test) in ("mp.current_process().daemon", "not (self.in_main_thread() or self.nesting_level == 0)")]
        others = [r for r in nodes_of_type(f, ast.Return) if not is_const(r.value, 1)]
        for gd in guards:
            false_edges = set()
            for nid in g.nodes_of(gd):
                for (t_, lab) in g.nodes[nid].succ:
                    if lab == "F":
                        false_edges.add((nid, t_, lab))
            reach = g.reach([g.entry], avoid_edges=false_edges)
            leak = [r for r in others if set(g.nodes_of(r)) & reach]
            ctx.check(not leak, leak[0] if leak else gd, "%s: a value other than 1 is returned only after `%s` was found false" % (q, unparse(gd.test, 60)),
                      "%s: `%s` can be reached without passing the guard `%s` (e.g. for a negative n_jobs tested earlier in the chain): worker processes are started from a nested / daemonic context" % (
                          q, unparse(leak[0], 40) if leak else "", unparse(gd.test, 60)))


def seq1(ctx):
    """One worker => the tasks run in the calling thread. Two sites cooperate: __call__ takes the sequential path either
    on the RESOLVED n_jobs == 1, or on "the backend is the sequential one" - and in the second form it relies on every
    pool backend's configure() falling back to SequentialBackend on the resolved value (a requested -1 may resolve to 1)."""
    call = F(ctx, "Parallel.__call__")
    g = cfg_of(call)
    seq = [c for c in calls_in(call) if call_name(c) == "self._get_sequential_output"]
    if not seq:
        ctx.bad(call, "__call__ no longer has a sequential path for a single worker", key=PAR + "::Parallel.__call__::sequential path")
        return
    facts = g.fact_set(g.nodes_of(seq[0]))
    by_count = ("n_jobs == 1", True) in facts
    by_backend = any(p and str(t).replace(" ", "") in ("isinstance(self._backend,SequentialBackend)", "type(self._backend)isSequentialBackend") for (t, p) in facts)
    ctx.check(by_count or by_backend, seq[0], "the sequential path is taken on %s" % ("the resolved n_jobs == 1" if by_count else "the sequential backend"),
              "the sequential path of __call__ is taken under %s" % sorted(facts))
    rets = [r for r in nodes_of_type(call, ast.Return) if g.every_path_to(g.nodes_of(r), g.nodes_of(seq[0]))]
    ctx.check(bool(rets), seq[0], "then returns without touching the dispatch machinery")
    go = [c for c in calls_in(call) if call_name(c) in ("self._get_outputs", "self._backend.start_call")]
    for c in go:
        ctx.check(not g.path_exists(g.nodes_of(seq[0]), g.nodes_of(c)), c, "%s is not reached from the sequential path" % call_name(c))
        fc = g.fact_set(g.nodes_of(c))
        ctx.check((("n_jobs == 1", False) in fc) if by_count else any((not p) and "SequentialBackend" in str(t) for (t, p) in fc) if by_backend else False, c,
                  "%s is reached only when the sequential path is not taken" % call_name(c))
    if by_count:
        nj = [a for a in nodes_of_type(call, ast.Assign) if "n_jobs" in stores_to(a)]
        ctx.check(len(nj) >= 1 and {call_name(a.value) for a in nj} <= {"self._initialize_backend", "self._effective_n_jobs"}, nj[0] if nj else call,
                  "the n_jobs tested is what the backend resolved (configure / effective_n_jobs)")
    so = F(ctx, "Parallel._get_sequential_output")
    ctx.check(not any(call_attr(c) == "submit" for c in calls_in(so)), so, "the sequential path never submits to a backend")
    for q in ("ThreadingBackend.configure", "MultiprocessingBackend.configure", "LokyBackend.configure"):
        f = F(ctx, q, BK)
        gg = cfg_of(f)
        t1 = [n for n in nodes_of_type(f, ast.If) if unparse(n.test) == "n_jobs == 1"]
        ok = bool(t1) and any(isinstance(s, ast.Raise) and isinstance(s.exc, ast.Call) and call_name(s.exc) == "FallbackToBackend" and s.exc.args and call_name(s.exc.args[0]) == "SequentialBackend" for s in t1[0].body)
        ctx.check(ok, t1[0] if t1 else f, "%s: n_jobs == 1 => FallbackToBackend(SequentialBackend)" % q, "%s no longer falls back to the sequential backend for n_jobs == 1" % q,
                  key=None if t1 else "%s::%s::n_jobs == 1 fallback" % (BK, q))
        if ok:
            nl = kwarg(t1[0].body[-1].exc.args[0], "nesting_level")
            ctx.check(nl is not None and dotted(nl) == "self.nesting_level", t1[0], "the fallback keeps the nesting level")
            res = [a for a in nodes_of_type(f, ast.Assign) if "n_jobs" in stores_to(a) and isinstance(a.value, ast.Call) and call_name(a.value) == "self.effective_n_jobs"]
            resolved_first = bool(res) and gg.every_path_to(gg.nodes_of(t1[0]), gg.nodes_of_all(res))
            if by_backend and not by_count:
                ctx.check(resolved_first, t1[0], "%s falls back on the RESOLVED n_jobs (which __call__ relies on)" % q,
                          "%s tests the requested n_jobs before resolving it, and __call__ chooses the sequential path by the backend's type: a request that only resolves to 1 "
                          "(n_jobs=-1 on one CPU, n_jobs <= -cpu_count) runs in a pool instead of the calling thread" % q)

def poolsize(ctx):
    for q, ctor in (("ThreadingBackend.configure", None), ("MultiprocessingBackend.configure", "MemmappingPool"), ("LokyBackend.configure", "get_memmapping_executor")):
        f = F(ctx, q, BK)
        g = cfg_of(f)
        d = [a for a in nodes_of_type(f, ast.Assign) if "n_jobs" in stores_to(a)]
        ok = len(d) == 1 and isinstance(d[0].value, ast.Call) and call_name(d[0].value) == "self.effective_n_jobs" and dotted(d[0].value.args[0]) == "n_jobs"
        ctx.check(ok, d[0] if d else f, "%s resolves n_jobs through self.effective_n_jobs" % q, "%s does not resolve n_jobs through effective_n_jobs" % q)
        if ctor:
            cs = [c for c in calls_in(f) if call_name(c) == ctor]
            ctx.need(cs, "%s no longer builds %s" % (q, ctor))
            for c in cs:
                ctx.check(c.args and dotted(c.args[0]) == "n_jobs" and g.every_path_to(g.nodes_of(c), g.nodes_of_all(d)), c, "%s(n_jobs, ...) is sized by the resolved n_jobs" % ctor,
                          "%s is sized by %s" % (ctor, unparse(c.args[0]) if c.args else "nothing"))
        else:
            st = assigns_to(f, "self._n_jobs")
            ctx.check(bool(st) and dotted(st[0].value) == "n_jobs" and g.every_path_to(g.nodes_of(st[0]), g.nodes_of_all(d)), st[0] if st else f, "ThreadingBackend stores the resolved n_jobs")
        rets = nodes_of_type(f, ast.Return)
        ctx.check(rets and all(dotted(r.value) == "n_jobs" for r in rets), rets[0] if rets else f, "%s returns the resolved n_jobs" % q)
    gp = F(ctx, "ThreadingBackend._get_pool", BK)
    tp = [c for c in calls_in(gp) if call_name(c) == "ThreadPool"]
    ctx.check(len(tp) == 1 and tp[0].args and dotted(tp[0].args[0]) == "self._n_jobs", tp[0] if tp else gp, "ThreadPool(self._n_jobs)")
    # executor chain: n_jobs -> max_workers
    ge = ctx.repo.func(EXE, "get_memmapping_executor")
    c = [c for c in calls_in(ge) if call_attr(c) == "get_memmapping_executor"]
    ctx.check(bool(c) and c[0].args and dotted(c[0].args[0]) == "n_jobs", c[0] if c else ge, "get_memmapping_executor forwards n_jobs")
    me = ctx.repo.func(EXE, "MemmappingExecutor.get_memmapping_executor")
    c = [c for c in calls_in(me) if call_attr(c) == "get_reusable_executor"]
    ctx.check(bool(c) and c[0].args and dotted(c[0].args[0]) == "n_jobs", c[0] if c else me, "MemmappingExecutor passes n_jobs as max_workers")
    gr = ctx.repo.func(RE, "_ReusablePoolExecutor.get_reusable_executor")
    cs = [c for c in calls_in(gr) if call_name(c) == "cls"]
    ctx.check(bool(cs) and all(dotted(kwarg(c, "max_workers")) == "max_workers" for c in cs), cs[0] if cs else gr, "a new executor is created with max_workers=max_workers")
    rs = [c for c in calls_in(gr) if call_attr(c) == "_resize"]
    ctx.check(bool(rs) and all(c.args and dotted(c.args[0]) == "max_workers" for c in rs), rs[0] if rs else gr, "a reused executor is resized to max_workers")
    rec = [c for c in calls_in(gr) if call_name(c) == "cls.get_reusable_executor"]
    ctx.check(all(dotted(kwarg(c, "max_workers")) == "max_workers" for c in rec), rec[0] if rec else gr, "the rebuild after a broken/shutdown executor keeps max_workers")
    rz = ctx.repo.func(RE, "_ReusablePoolExecutor._resize")
    grz = cfg_of(rz)
    adj = [c for c in calls_in(rz) if call_name(c) == "self._adjust_process_count"]
    setw = [a for a in assigns_to(rz, "self._max_workers") if dotted(a.value) == "max_workers"]
    if adj:
        ctx.check(bool(setw) and grz.every_path_to(grz.nodes_of_all(adj), grz.nodes_of_all(setw)), adj[0], "_resize records the new size before (re)spawning workers up to it",
                  "_resize spawns workers before recording the new size: a shrinking executor respawns up to the OLD size and keeps running more than n_jobs workers")
    else:
        ctx.ok(rz, "_resize does not spawn workers itself (the pool grows lazily on submit, never beyond _max_workers)", key=RE + "::_ReusablePoolExecutor._resize::spawning")
    # every normal way out of _resize has recorded the requested size (or it already was the size): a later start /
    # _adjust_process_count must never see the previous, larger, size
    from ..core import cond_facts
    for ex_ in [r for r in nodes_of_type(rz, ast.Return)] + [rz]:
        if ex_ is rz:
            ok_ = bool(setw) and grz.every_path_to([grz.exit], set(grz.nodes_of_all(setw)) | set(grz.nodes_of_all(nodes_of_type(rz, ast.Return))) | set(grz.nodes_of_all(nodes_of_type(rz, ast.Raise))), skip_exc=True)
            ctx.check(ok_, rz, "falling off the end of _resize happens only after the new size was recorded", "_resize can finish without recording the requested size")
            continue
        fc = cond_facts(grz.conditions_at(grz.nodes_of(ex_)))
        same = ("max_workers == self._max_workers", True) in fc or ("self._max_workers == max_workers", True) in fc
        ctx.check(same or (bool(setw) and grz.every_path_to(grz.nodes_of(ex_), grz.nodes_of_all(setw), skip_exc=True)), ex_, "this exit of _resize is taken with the size already right or freshly recorded",
                  "_resize returns without recording the requested size (e.g. for an executor whose workers are not started yet): it later starts with the previous size, which may exceed the resolved n_jobs")
    apc = ctx.repo.func("joblib/externals/loky/process_executor.py", "ProcessPoolExecutor._adjust_process_count")
    lp = [w for w in nodes_of_type(apc, ast.While)]
    ctx.check(bool(lp) and unparse(lp[0].test) == "len(self._processes) < self._max_workers", lp[0] if lp else apc, "workers are spawned while fewer than _max_workers exist (never more)",
              "_adjust_process_count spawns under `%s`" % (unparse(lp[0].test) if lp else None))
    zt = [n for n in nodes_of_type(gr, ast.If)]
    ctx.check(any("max_workers <= 0" in unparse(n) for n in ast.walk(gr) if isinstance(n, ast.Compare)), gr, "max_workers <= 0 is rejected")
    # abort_everything re-configures with the call's n_jobs
    for q in ("PoolManagerMixin.abort_everything", "LokyBackend.abort_everything"):
        f = F(ctx, q, BK)
        for c in calls_in(f):
            if call_name(c) == "self.configure":
                ctx.check(dotted(kwarg(c, "n_jobs", 0)) == "self.parallel.n_jobs", c, "%s re-configures with parallel.n_jobs" % q)
    ib = F(ctx, "Parallel._initialize_backend")
    c = [c for c in calls_in(ib) if call_name(c) == "self._backend.configure"]
    ctx.check(bool(c) and dotted(kwarg(c[0], "n_jobs")) == "self.n_jobs", c[0] if c else ib, "Parallel configures its backend with self.n_jobs")


def cpu_ge1(ctx):
    f = ctx.repo.func(CTXF, "cpu_count")
    g = cfg_of(f)
    rets = nodes_of_type(f, ast.Return)
    ctx.floor(len(rets), 3, "returns of loky cpu_count")
    for r in rets:
        lb = lower_bound(r.value, f)
        if lb is not None:
            ctx.check(lb >= 1, r, "return %s has integer lower bound %d >= 1" % (unparse(r.value), lb), "return %s has lower bound %d" % (unparse(r.value), lb))
        elif dotted(r.value) == "cpu_count_physical":
            conds = g.conditions_at(g.nodes_of(r))
            ok = any(unparse(t) == "cpu_count_physical != 'not found'" and pol for (_, t, pol) in conds)
            ctx.check(ok, r, "physical core count is returned only when it was found")
            pc = ctx.repo.func(CTXF, "_count_physical_cores")
            chk = [n for n in nodes_of_type(pc, ast.If) if unparse(n.test) == "cpu_count_physical < 1" and any(isinstance(s, ast.Raise) for s in n.body)]
            ctx.check(bool(chk), chk[0] if chk else pc, "_count_physical_cores rejects values < 1 (=> 'not found')", "_count_physical_cores no longer rejects values < 1")
            if chk:
                tr = [t for t in nodes_of_type(pc, ast.Try) if chk[0] in t.body]
                ok2 = tr and any(isinstance(a, ast.Assign) and "cpu_count_physical" in stores_to(a) and const_value(a.value) == "not found" for h in tr[0].handlers for a in h.body)
                ctx.check(bool(ok2), chk[0], "the rejection turns into the 'not found' marker")
        else:
            ctx.bad(r, "return %s of cpu_count has no provable lower bound of 1" % unparse(r.value))
    pc = ctx.repo.func(PAR, "cpu_count")
    for r in nodes_of_type(pc, ast.Return):
        ctx.check(is_const(r.value, 1) or (isinstance(r.value, ast.Call) and call_name(r.value) == "loky.cpu_count"), r, "joblib.cpu_count returns 1 or delegates to loky.cpu_count")


def _min_atoms(e, fn, depth=3):
    """atoms of a min-tree, inlining single-definition locals"""
    if isinstance(e, ast.Call) and call_name(e) == "min":
        out = []
        for a in e.args:
            out += _min_atoms(a, fn, depth)
        return out
    if isinstance(e, ast.Name) and depth > 0:
        d = _single_defs(fn, e.id)
        if len(d) == 1:
            return _min_atoms(d[0].value, fn, depth - 1)
    return [e]


def cpu_min(ctx):
    f = ctx.repo.func(CTXF, "cpu_count")
    agg = _single_defs(f, "aggregate_cpu_count")
    ctx.need(len(agg) == 1, "aggregate_cpu_count definition not found")
    v = agg[0].value
    ok = isinstance(v, ast.Call) and call_name(v) == "max" and len(v.args) == 2 and any(is_const(a, 1) for a in v.args)
    ctx.check(ok, agg[0], "aggregate = max(<min-tree>, 1)", "aggregate is %s" % unparse(v))
    if not ok:
        return
    inner = [a for a in v.args if not is_const(a, 1)][0]
    atoms = [unparse(a) for a in _min_atoms(inner, f)]
    ctx.check(isinstance(inner, ast.Call) and call_name(inner) == "min" and "_cpu_count_user(os_cpu_count)" in atoms and any(a.startswith("os.cpu_count()") or a == "os_cpu_count" for a in atoms), agg[0],
              "min-tree contains the OS count and the user-level count (%s)" % atoms, "min-tree is %s" % atoms)
    u = ctx.repo.func(CTXF, "_cpu_count_user")
    rets = [r for r in nodes_of_type(u, ast.Return) if r.value is not None]
    ctx.need(len(rets) >= 1, "_cpu_count_user returns nothing")
    for r0 in rets:
        # every answer is the minimum, computed NOW: the affinity mask, the cgroup quota and the environment can all change
        # while the process runs, so a remembered answer (a module-level cache, an attribute) is not the minimum any more
        v0 = r0.value
        if isinstance(v0, ast.Name):
            d0 = _single_defs(u, v0.id)
            v0 = d0[0].value if len(d0) == 1 else v0
        atoms = [unparse(a) for a in _min_atoms(v0, u)]
        if not (isinstance(v0, ast.Call) and call_name(v0) == "min"):
            ctx.bad(r0, "_cpu_count_user answers `%s`, which is not the minimum over affinity, cgroup quota and LOKY_MAX_CPU_COUNT evaluated at the time of the call "
                        "(a remembered answer ignores a later change of the affinity mask or of the quota)" % unparse(r0.value, 60))
            continue
        ctx.ok(r0, "_cpu_count_user returns a min(...)")
        ctx.check("_cpu_count_affinity(os_cpu_count)" in atoms, r0, "the minimum honours CPU affinity", "CPU affinity is no longer part of the minimum: %s" % atoms)
        ctx.check(any("LOKY_MAX_CPU_COUNT" in a and a.startswith("int(os.environ.get(") for a in atoms), r0, "the minimum honours LOKY_MAX_CPU_COUNT", "LOKY_MAX_CPU_COUNT is no longer part of the minimum: %s" % atoms)
        ctx.check("_cpu_count_cgroup(os_cpu_count)" in atoms, r0, "the minimum honours the cgroup quota")
    cgf = ctx.repo.func(CTXF, "_cpu_count_cgroup")
    gcg = cfg_of(cgf)
    from ..core import cond_facts
    for r_ in nodes_of_type(cgf, ast.Return):
        fc = [x for x in cond_facts(gcg.conditions_at(gcg.nodes_of(r_))) if "cpu_quota_us" in x[0] and "cpu_period_us" not in x[0]]
        if unparse(r_.value) == "os_cpu_count" and ("cpu_quota_us == 'max'", True) in fc:
            ctx.ok(r_, "no cgroup quota ('max') => the OS count")
        elif unparse(r_.value) == "os_cpu_count":
            ctx.check(("cpu_quota_us == 'max'", False) in fc, r_, "a non-positive quota disables the limit")
        else:
            ctx.check(("cpu_quota_us == 'max'", False) in fc and "cpu_quota_us / cpu_period_us" in unparse(r_.value) and call_name(r_.value) == "math.ceil", r_, "a numeric quota bounds the count by ceil(quota / period)",
                      "the cgroup bound is returned as %s under %s" % (unparse(r_.value), fc))
    for c_ in calls_in(cgf):
        if call_name(c_) == "int" and c_.args and dotted(c_.args[0]) in ("cpu_quota_us", "cpu_period_us"):
            fc = cond_facts(gcg.conditions_at(gcg.nodes_of(c_)))
            ctx.check(("cpu_quota_us == 'max'", False) in fc, c_, "the quota is parsed as a number only when it is not 'max'", "int(%s) is evaluated under %s: without a cgroup quota cpu_count() raises ValueError" % (dotted(c_.args[0]), fc))
    af = ctx.repo.func(CTXF, "_cpu_count_affinity")
    ok = any(isinstance(r.value, ast.Call) and unparse(r.value) == "len(os.sched_getaffinity(0))" for r in nodes_of_type(af, ast.Return))
    ctx.check(ok, af, "_cpu_count_affinity returns len(os.sched_getaffinity(0)) when available")
    pu = _single_defs(f, "cpu_count_user")
    g = cfg_of(f)
    r2 = [r for r in nodes_of_type(f, ast.Return) if unparse(r.value) == "max(cpu_count_user, 1)"]
    for r in r2:
        ctx.check(any(unparse(t) == "cpu_count_user < os_cpu_count" and pol for (_, t, pol) in g.conditions_at(g.nodes_of(r))), r, "user limit wins over the physical-core count when it is lower")


def nest(ctx):
    f = F(ctx, "ParallelBackendBase.get_nested_backend", BK)
    g = cfg_of(f)
    nl = _single_defs(f, "nesting_level")
    ctx.check(len(nl) == 1 and unparse(nl[0].value) == "getattr(self, 'nesting_level', 0) + 1", nl[0] if nl else f, "nested level = own level + 1")
    rets = nodes_of_type(f, ast.Return)
    ctx.need(len(rets) == 2, "get_nested_backend has not two returns")
    for r in rets:
        first = r.value.elts[0] if isinstance(r.value, ast.Tuple) else r.value
        conds = g.conditions_at(g.nodes_of(r))
        deep = any(unparse(t) == "nesting_level > 1" and pol for (_, t, pol) in conds)
        shallow = any(unparse(t) == "nesting_level > 1" and not pol for (_, t, pol) in conds)
        want = "SequentialBackend" if deep else "ThreadingBackend" if shallow else None
        ctx.check(want is not None and isinstance(first, ast.Call) and call_name(first) == want and dotted(kwarg(first, "nesting_level")) == "nesting_level", r,
                  "%s => %s(nesting_level=level+1)" % ("level > 1" if deep else "level <= 1", want), "nested backend choice changed: %s under %s" % (unparse(first), [(unparse(t), p) for _, t, p in conds]))
    # no subclass among the process backends overrides it to return a process backend
    for cname in ("MultiprocessingBackend", "LokyBackend", "ThreadingBackend", "PoolManagerMixin", "AutoBatchingMixin"):
        c = ctx.repo.cls(BK, cname)
        ov = [s for s in c.body if isinstance(s, ast.FunctionDef) and s.name == "get_nested_backend"]
        ctx.check(not ov, c, "%s inherits get_nested_backend" % cname, "%s overrides get_nested_backend" % cname)
    sq = F(ctx, "SequentialBackend.get_nested_backend", BK)
    ctx.check(any(isinstance(r.value, ast.Call) and call_name(r.value) == "get_active_backend" for r in nodes_of_type(sq, ast.Return)), sq, "SequentialBackend keeps the active backend (no new level)")
    bc = F(ctx, "BatchedCalls.__call__")
    ws = [w for w in nodes_of_type(bc, ast.With) if any(isinstance(i.context_expr, ast.Call) and call_name(i.context_expr) == "parallel_config" for i in w.items)]
    if not ws:
        ctx.bad(bc, "BatchedCalls.__call__ no longer runs its items inside parallel_config(<nested backend>): nested Parallel calls in workers use the default (process) backend",
                key=PAR + "::BatchedCalls.__call__::with parallel_config(nested backend)")
        return
    ce = ws[0].items[0].context_expr
    ctx.check(dotted(kwarg(ce, "backend")) == "self._backend" and dotted(kwarg(ce, "n_jobs")) == "self._n_jobs", ws[0], "workers run their items inside parallel_config(backend=<nested backend>, n_jobs=<nested n_jobs>)")
    rets = nodes_of_type(bc, ast.Return)
    ctx.check(all(any(a is ws[0] for a in __import__("sa.core", fromlist=["ancestors"]).ancestors(r)) for r in rets), ws[0], "the task calls happen inside that block")
    bi = F(ctx, "BatchedCalls.__init__")
    tup = [a for a in nodes_of_type(bi, ast.Assign) if isinstance(a.targets[0], ast.Tuple) and [dotted(e) for e in a.targets[0].elts] == ["self._backend", "self._n_jobs"]]
    ctx.check(len(tup) == 2, tup[0] if tup else bi, "BatchedCalls unpacks (backend, n_jobs) from get_nested_backend's result")
    d = F(ctx, "Parallel.dispatch_one_batch")
    for c in calls_in(d):
        if call_name(c) == "BatchedCalls":
            ctx.check(len(c.args) >= 2 and isinstance(c.args[1], ast.Call) and call_name(c.args[1]) == "self._backend.get_nested_backend", c, "every batch carries self._backend.get_nested_backend()")
    pi = F(ctx, "ParallelBackendBase.__init__", BK)
    st = assigns_to(pi, "self.nesting_level")
    ctx.check(bool(st) and dotted(st[0].value) == "nesting_level", st[0] if st else pi, "backends store the nesting level they are given")


def run(ctx):
    ctx.run("C15.RESOLVE", "R-SIBLING/R-ARITH", resolve)
    ctx.run("C15.SEQ1", "R-ORDER", seq1)
    ctx.run("C15.POOLSIZE", "R-FLOW", poolsize)
    ctx.run("C15.CPU-GE1", "R-ARITH", cpu_ge1)
    ctx.run("C15.CPU-MIN", "R-ARITH", cpu_min)
    ctx.run("C15.NEST", "R-TABLE", nest)
    from . import c17
    ctx.run("C17.HINT", "R-ORDER", c17.hint)
    from . import par as _par
    ctx.run("C16.GENEXIT", "R-ORDER", _par.c16_genexit)
