"""Statement-level control-flow graph of one function, with path queries.

Nodes are simple statements and the headers of compound statements.  Two
exits: EXIT (return / fall off the end) and XEXIT (an exception leaves the
function).  Explicit `raise` statements go to the handlers of the enclosing
`try` (and outwards unless a handler catches everything); *implicit*
exceptions are modelled only inside `try` bodies that have handlers (every
statement of such a body has an edge to the handler dispatch), which is what
the rules need: handler reachability, and "normal exit" reasoning elsewhere.
`finally` bodies are duplicated per continuation (normal, return, break,
continue, exception) so that paths through them are not merged.

All queries are phrased as reachability with nodes or edges removed:
  * every path ENTRY -> T passes through V   <=>  T unreachable once V removed
  * every path S -> EXIT passes through V    <=>  EXIT unreachable from S once V removed
"""

import ast

from .core import Undecidable, enclosing_stmt, FUNC_TYPES


class Node:
    __slots__ = ("id", "kind", "ast", "succ")

    def __init__(self, id, kind, astnode):
        self.id = id
        self.kind = kind
        self.ast = astnode
        self.succ = []  # (target id, label) ; label in {None,'T','F','exc'}

    def __repr__(self):  # pragma: no cover
        return "<%d %s %s>" % (self.id, self.kind, getattr(self.ast, "lineno", ""))


class _Ctx:
    __slots__ = ("ret", "brk", "cont", "exc", "implicit")

    def __init__(self, ret, brk, cont, exc, implicit):
        self.ret, self.brk, self.cont, self.exc, self.implicit = ret, brk, cont, exc, implicit

    def replace(self, **kw):
        d = {k: getattr(self, k) for k in self.__slots__}
        d.update(kw)
        return _Ctx(**d)


def _memo(fn):
    box = []

    def thunk():
        if not box:
            box.append(fn())
        return box[0]

    return thunk


def _const_truth(test):
    if isinstance(test, ast.Constant):
        return bool(test.value)
    return None


def _cannot_raise(st):
    """statements that cannot raise (no implicit exception edge out of a try body): `pass`, and the assignment of a
    constant to plain local names"""
    if isinstance(st, ast.Pass):
        return True
    if isinstance(st, ast.Assign) and isinstance(st.value, ast.Constant) and all(isinstance(t, ast.Name) for t in st.targets):
        return True
    return False


class CFG:
    def __init__(self, func):
        self.func = func
        self.nodes = []
        self.by_ast = {}
        self.entry = self._new("entry", None)
        self.exit = self._new("exit", None)
        self.xexit = self._new("xexit", None)
        ctx = _Ctx(
            ret=lambda: self.exit,
            brk=None,
            cont=None,
            exc=lambda: self.xexit,
            implicit=None,
        )
        body = func.body if not isinstance(func, ast.Lambda) else []
        first = self._seq(body, self.exit, ctx)
        self._edge(self.entry, first)
        self._pred = None

    # -- construction --------------------------------------------------------
    def _new(self, kind, astnode):
        n = Node(len(self.nodes), kind, astnode)
        self.nodes.append(n)
        if astnode is not None:
            self.by_ast.setdefault(id(astnode), []).append(n.id)
        return n.id

    def _edge(self, a, b, label=None):
        if (b, label) not in self.nodes[a].succ:
            self.nodes[a].succ.append((b, label))

    def _implicit(self, n, ctx):
        if ctx.implicit is not None and not _cannot_raise(self.nodes[n].ast):
            self._edge(n, ctx.implicit(), "exc")

    def _seq(self, stmts, nxt, ctx):
        for st in reversed(stmts):
            nxt = self._stmt(st, nxt, ctx)
        return nxt

    def _stmt(self, st, nxt, ctx):
        if isinstance(st, ast.Return):
            n = self._new("stmt", st)
            self._edge(n, ctx.ret())
            self._implicit(n, ctx)
            return n
        if isinstance(st, ast.Raise):
            n = self._new("stmt", st)
            self._edge(n, ctx.exc(), "exc")
            return n
        if isinstance(st, ast.Break):
            n = self._new("stmt", st)
            if ctx.brk is None:
                raise Undecidable("break outside loop")
            self._edge(n, ctx.brk())
            return n
        if isinstance(st, ast.Continue):
            n = self._new("stmt", st)
            if ctx.cont is None:
                raise Undecidable("continue outside loop")
            self._edge(n, ctx.cont())
            return n
        if isinstance(st, ast.If):
            t = self._new("test", st)
            self._implicit(t, ctx)
            truth = _const_truth(st.test)
            if truth is not False:
                self._edge(t, self._seq(st.body, nxt, ctx), "T")
            if truth is not True:
                self._edge(t, self._seq(st.orelse, nxt, ctx), "F")
            return t
        if isinstance(st, ast.While):
            t = self._new("test", st)
            self._implicit(t, ctx)
            inner = ctx.replace(brk=lambda: nxt, cont=lambda: t)
            truth = _const_truth(st.test)
            if truth is not False:
                self._edge(t, self._seq(st.body, t, inner), "T")
            if truth is not True:
                self._edge(t, self._seq(st.orelse, nxt, ctx), "F")
            return t
        if isinstance(st, (ast.For, ast.AsyncFor)):
            t = self._new("for", st)
            self._implicit(t, ctx)
            inner = ctx.replace(brk=lambda: nxt, cont=lambda: t)
            self._edge(t, self._seq(st.body, t, inner), "T")
            self._edge(t, self._seq(st.orelse, nxt, ctx), "F")
            return t
        if isinstance(st, (ast.With, ast.AsyncWith)):
            w = self._new("with", st)
            self._implicit(w, ctx)
            self._edge(w, self._seq(st.body, nxt, ctx))
            return w
        if isinstance(st, ast.Try):
            return self._try(st, nxt, ctx)
        if hasattr(ast, "TryStar") and isinstance(st, ast.TryStar):
            raise Undecidable("try/except* not modelled")
        if hasattr(ast, "Match") and isinstance(st, ast.Match):
            raise Undecidable("match statement not modelled")
        # simple statement (incl. nested def/class, assert, expr, assign, ...)
        n = self._new("stmt", st)
        self._edge(n, nxt)
        self._implicit(n, ctx)
        return n

    def _try(self, st, nxt, ctx):
        F = st.finalbody
        if F:
            after = _memo(lambda: self._seq(F, nxt, ctx))
            ret = _memo(lambda: self._seq(F, ctx.ret(), ctx))
            brk = _memo(lambda: self._seq(F, ctx.brk(), ctx)) if ctx.brk else None
            cont = _memo(lambda: self._seq(F, ctx.cont(), ctx)) if ctx.cont else None
            exc = _memo(lambda: self._seq(F, ctx.exc(), ctx))
            out = _Ctx(ret=ret, brk=brk, cont=cont, exc=exc, implicit=ctx.implicit)
            # an implicit exception inside handlers/else of a try/finally nested
            # in an outer try body still reaches the outer dispatch via F; the
            # rules do not need that precision.
        else:
            after = lambda: nxt  # noqa: E731
            out = ctx
        t = self._new("try", st)
        if st.handlers:
            d = self._new("dispatch", None)
            catch_all = False
            for h in st.handlers:
                hn = self._new("handler", h)
                self._edge(d, hn, "exc")
                self._edge(hn, self._seq(h.body, after(), out))
                if h.type is None:
                    catch_all = True
                else:
                    elts = h.type.elts if isinstance(h.type, ast.Tuple) else [h.type]
                    for e in elts:
                        if isinstance(e, ast.Name) and e.id == "BaseException":
                            catch_all = True
            if not catch_all:
                self._edge(d, out.exc(), "exc")
            body_ctx = out.replace(exc=lambda: d, implicit=lambda: d)
        else:
            body_ctx = out
        else_entry = self._seq(st.orelse, after(), out) if st.orelse else after()
        self._edge(t, self._seq(st.body, else_entry, body_ctx))
        return t

    # -- lookup ----------------------------------------------------------------
    def nodes_of(self, astnode):
        """CFG node ids of the statement (header) containing `astnode`."""
        if isinstance(astnode, ast.ExceptHandler):
            return list(self.by_ast.get(id(astnode), []))
        st = enclosing_stmt(astnode)
        return list(self.by_ast.get(id(st), []))

    def nodes_of_all(self, astnodes):
        out = set()
        for a in astnodes:
            out.update(self.nodes_of(a))
        return out

    def label_succ(self, nid, label):
        return [t for (t, lab) in self.nodes[nid].succ if lab == label]

    # -- queries ---------------------------------------------------------------
    def reach(self, srcs, avoid=(), avoid_edges=(), skip_exc=False):
        avoid = set(avoid)
        avoid_edges = set(avoid_edges)
        seen = set()
        stack = [s for s in srcs if s not in avoid]
        while stack:
            n = stack.pop()
            if n in seen:
                continue
            seen.add(n)
            for (t, lab) in self.nodes[n].succ:
                if t in avoid or (n, t, lab) in avoid_edges:
                    continue
                if skip_exc and lab == "exc":
                    continue
                if t not in seen:
                    stack.append(t)
        return seen

    def reachable(self, astnode):
        r = self.reach([self.entry])
        return any(n in r for n in self.nodes_of(astnode))

    def every_path_to(self, targets, via, skip_exc=False, avoid_edges=()):
        """Every path ENTRY -> (any node of targets) passes through `via`.
        Vacuously true for unreachable targets."""
        via = set(via)
        r = self.reach([self.entry], avoid=via, skip_exc=skip_exc, avoid_edges=avoid_edges)
        return not any(t in r for t in targets if t not in via)

    def every_path_from(self, srcs, via, to=None, skip_exc=False, avoid_edges=()):
        """Every path from the *successors* of srcs to `to` (default: normal
        EXIT) passes through `via`."""
        via = set(via)
        to = {self.exit} if to is None else set(to)
        starts = set()
        for s in srcs:
            for (t, lab) in self.nodes[s].succ:
                if skip_exc and lab == "exc":
                    continue
                starts.add(t)
        r = self.reach(starts, avoid=via, skip_exc=skip_exc, avoid_edges=avoid_edges)
        return not (r & to)

    def path_exists(self, srcs, dsts, avoid=(), skip_exc=False, strict=True):
        starts = set()
        if strict:
            for s in srcs:
                for (t, lab) in self.nodes[s].succ:
                    if skip_exc and lab == "exc":
                        continue
                    starts.add(t)
        else:
            starts = set(srcs)
        r = self.reach(starts, avoid=avoid, skip_exc=skip_exc)
        return bool(r & set(dsts))

    def conditions_at(self, targets):
        """[(test ast node, polarity)] such that every path to each target
        takes that branch of that test."""
        out = []
        targets = set(targets)
        for n in self.nodes:
            if n.kind not in ("test", "for"):
                continue
            for (t, lab) in n.succ:
                if lab not in ("T", "F"):
                    continue
                r = self.reach([self.entry], avoid_edges={(n.id, t, lab)})
                if not (targets & r):
                    test = n.ast.test if n.kind == "test" else n.ast.iter
                    out.append((n.ast, test, lab == "T"))
        return out

    def atoms_at(self, targets):
        """like conditions_at, decomposed into atomic facts [(if/while node, atom expr, polarity)]: a true conjunction
        makes each conjunct true, a false disjunction each disjunct false, `not x` true is x false. Independent of how
        the guards are spelled (nested ifs, `and`, early returns, merged `or` guards)."""
        out = []
        for (node, test, pol) in self.conditions_at(targets):
            if isinstance(node, (ast.For, ast.AsyncFor)):
                continue
            for atom, p in _atoms(test, pol):
                while isinstance(atom, ast.UnaryOp) and isinstance(atom.op, ast.Not):
                    atom, p = atom.operand, not p
                if isinstance(atom, ast.Compare) and len(atom.ops) == 1 and type(atom.ops[0]) in _POS_OP:
                    atom = ast.copy_location(ast.Compare(left=atom.left, ops=[_POS_OP[type(atom.ops[0])]()], comparators=atom.comparators), atom)
                    p = not p
                out.append((node, atom, p))
        return out

    def fact_set(self, targets):
        from .core import unparse
        return {(unparse(a, 400), p) for (_, a, p) in self.atoms_at(targets)}

    def assume_edges(self, pred):
        """Edges to drop when the tests satisfying `pred(test expr)` are
        assumed: pred returns True/False (the assumed truth value) or None."""
        out = set()
        for n in self.nodes:
            if n.kind != "test":
                continue
            v = pred(n.ast.test)
            if v is None:
                continue
            for (t, lab) in n.succ:
                if lab == ("F" if v else "T"):
                    out.add((n.id, t, lab))
        return out

    def in_cycle(self, nid):
        return self.path_exists([nid], [nid])

    def stats(self):
        return len(self.nodes), sum(len(n.succ) for n in self.nodes)


_POS_OP = {ast.NotEq: ast.Eq, ast.IsNot: ast.Is, ast.NotIn: ast.In}


def _atoms(test, pol):
    """facts implied by `test` being `pol`: a true conjunction makes each conjunct true, a false disjunction each
    disjunct false, `not (a or b)` true is a false disjunction (a bare `not x` stays whole)"""
    t = test
    if isinstance(t, ast.UnaryOp) and isinstance(t.op, ast.Not) and isinstance(t.operand, ast.BoolOp):
        for x in _atoms(t.operand, not pol):
            yield x
        return
    if isinstance(t, ast.BoolOp) and ((isinstance(t.op, ast.And) and pol) or (isinstance(t.op, ast.Or) and not pol)):
        for v in t.values:
            for x in _atoms(v, pol):
                yield x
        return
    yield t, pol


_cache = {}


def cfg_of(func):
    c = _cache.get(id(func))
    if c is None or c.func is not func:
        c = CFG(func)
        _cache[id(func)] = c
    return c


def n_cfgs():
    return len(_cache)


def reset_cache():
    _cache.clear()
