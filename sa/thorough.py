"""Thorough tier: the quick clauses, plus
 (a) the clauses of every sibling property of the same mechanism family (the mechanisms are shared:
     a broken dispatch lock is a C01, C04, C09 and C16 matter alike),
 (b) whole-package structural scans (reduce/arity duality, undeclared polling loops, bare excepts that
     swallow in anchored modules) - reported as obligations of clause <Cxx>.PKG-*,
 (c) a drift report against the frozen reference instance table (reference/instances.json): constructs
     that appeared / vanished since the table was frozen on the pinned (repaired) tree - evidence only,
 (d) the self-test corpus of the family evaluated on in-memory variants of the *current* tree -
     evidence only: it validates the checker, it never changes the verdict on /repo.
"""

import ast
import json
import os

from .core import call_name, calls_in, dotted, nodes_of_type, unparse, param_names, call_attr
from .report import VERIF

FAMILIES = [
    ["C01", "C04", "C09", "C16"],
    ["C02", "C05", "C06", "C07", "C08", "C11", "C12", "C18"],
    ["C03", "C13", "C14", "C19"],
    ["C10", "C20"],
    ["C15"],
    ["C17"],
]


def family_of(pid):
    for fam in FAMILIES:
        if pid in fam:
            return fam
    return [pid]


def reduce_arity(ctx):
    """Every __reduce__ in the non-vendored package returning (callable, args-tuple[, ...]) with an
    in-package callable passes as many positional values as the callable accepts."""
    n = 0
    for rel, mod in ctx.repo.modules.items():
        if "externals/cloudpickle" in rel:
            continue
        for q, fn in mod.funcs.items():
            if not q.endswith("__reduce__"):
                continue
            for r in nodes_of_type(fn, ast.Return):
                v = r.value
                if not (isinstance(v, ast.Tuple) and len(v.elts) >= 2):
                    continue
                callee, args = v.elts[0], v.elts[1]
                if isinstance(args, ast.Name):
                    d = [a for a in nodes_of_type(fn, ast.Assign) if args.id in [getattr(t, "id", None) for t in a.targets]]
                    args = d[0].value if len(d) == 1 else args
                if not isinstance(args, ast.Tuple):
                    continue
                fake = ast.Call(func=callee, args=[], keywords=[])
                fake._module = mod
                fake._parent = r
                callee._parent = fake
                targets = ctx.res.resolve_call(fake)
                for t in targets:
                    a = t.args
                    pos = [x.arg for x in a.posonlyargs + a.args]
                    if pos and pos[0] in ("self", "cls"):
                        pos = pos[1:]
                    n_req = len(pos) - len(a.defaults)
                    n_given = len(args.elts)
                    n += 1
                    ok = n_req <= n_given <= len(pos) or a.vararg is not None
                    ctx.check(ok, r, "%s -> %s: %d positional values for %d..%d parameters" % (q, t._qualname, n_given, n_req, len(pos)),
                              "%s passes %d values to %s, which takes %d..%d" % (q, n_given, t._qualname, n_req, len(pos)))
    ctx.floor(n, 2, "__reduce__ tuples resolved to in-package callables")


def polling_loops(ctx):
    """Informational inventory of every `while` in the package with its classification."""
    n = 0
    for rel, mod in ctx.repo.modules.items():
        if "externals/cloudpickle" in rel:
            continue
        for q, fn in mod.funcs.items():
            for lp in nodes_of_type(fn, ast.While):
                n += 1
                sleeps = any(call_name(c) in ("time.sleep", "sleep") for c in calls_in(lp))
                kind = "constant-true" if isinstance(lp.test, ast.Constant) else "sleep-polling" if sleeps else "data-driven"
                ctx.ok(lp, "while-loop inventory: %s::%s `while %s` (%s)" % (rel, q, unparse(lp.test, 60), kind))
    ctx.floor(n, 20, "while loops in the package")


def drift(ctx):
    """Compare the (clause, construct) pairs of this run with the frozen reference table."""
    p = os.path.join(VERIF, "reference", "instances.json")
    if not os.path.exists(p):
        return {"reference": "absent"}
    ref = json.load(open(p)).get(ctx.pid, [])
    now = sorted({(o.clause, o.key) for o in ctx.obs if not o.clause.endswith(("PKG-REDUCE", "PKG-LOOPS"))})
    refset = {tuple(x) for x in ref}
    nowset = set(now)
    return {
        "reference_instances": len(refset),
        "current_instances": len(nowset),
        "vanished_since_reference": sorted(refset - nowset)[:40],
        "new_since_reference": sorted(nowset - refset)[:40],
    }


def run_extras(ctx, pid, rules_loader):
    fam = family_of(pid)
    own = set(ctx.clauses_run)
    drift_report = drift(ctx)  # against the property's own quick clauses, before the extras are added
    # (a) sibling clauses: replay each sibling's run() but skip clauses already evaluated
    orig_run = ctx.run

    def run_once(clause_id, family, fn, *a, **kw):
        if clause_id in own:
            return
        own.add(clause_id)
        orig_run(clause_id, family, fn, *a, **kw)
    ctx.run = run_once
    try:
        for sib in fam:
            if sib == pid:
                continue
            m = rules_loader(sib)
            if m is not None:
                m.run(ctx)
    finally:
        ctx.run = orig_run
    # (b) package scans
    ctx.run(pid + ".PKG-REDUCE", "R-DUAL", reduce_arity)
    ctx.run(pid + ".PKG-LOOPS", "R-PROGRESS", polling_loops)
    extra = {"family": fam, "drift": drift_report}
    return extra


def run_selftest(root, fam):
    from . import selftest
    corpus, res, wall = selftest.run_corpus(root, only=set(fam))
    out = {"variants": len(res), "ok": sum(1 for r in res if r[1] == "ok"), "stale": sum(1 for r in res if r[1] == "stale"),
           "failed": [r for r in res if r[1] == "FAIL"], "wall_s": round(wall, 2),
           "must_fire": sum(1 for v in corpus if v["expect"].startswith("fire")), "must_stay_silent": sum(1 for v in corpus if v["expect"] == "silent")}
    return out


# ---------------------------------------------------------------------------------------------------------
# (e) the two corpora of independent sub-agents, applied to the CURRENT tree in memory:
#     seeded/<id>/patch.diff   - confirmed breaking changes of this property: each must be reported (exit 1)
#     refactors/<id>/patch.diff - confirmed behaviour-preserving refactorings: each must stay silent
#     Patches that no longer apply to the current tree are counted as "not applicable", never as a result.

def _apply_in_memory(root, patch_path):
    """-> {relpath: new source} or None when the patch does not apply to the files of `root`."""
    import shutil
    import subprocess
    import tempfile
    try:
        txt = open(patch_path, encoding="utf-8", errors="replace").read()
    except OSError:
        return None
    files = sorted({l[6:].strip() for l in txt.splitlines() if l.startswith("+++ b/")})
    files = [f for f in files if f.startswith("joblib/") and f.endswith(".py")]
    if not files:
        return None
    tmp = tempfile.mkdtemp(prefix="sa-patch-")
    try:
        for f in files:
            src = os.path.join(root, f)
            os.makedirs(os.path.dirname(os.path.join(tmp, f)), exist_ok=True)
            if os.path.exists(src):
                shutil.copy(src, os.path.join(tmp, f))
        r = subprocess.run(["git", "apply", "--whitespace=nowarn", os.path.abspath(patch_path)], cwd=tmp, capture_output=True, text=True)
        if r.returncode != 0:
            return None
        out = {}
        for f in files:
            p = os.path.join(tmp, f)
            if os.path.exists(p):
                out[f] = open(p, encoding="utf-8").read()
        return out
    finally:
        shutil.rmtree(tmp, ignore_errors=True)


def _corpus_job(args):
    kind, sid, root, pids, patch = args
    import io
    import sys as _sys
    from .cli import run_property
    ov = _apply_in_memory(root, patch)
    if ov is None:
        return (kind, sid, "n/a", [])
    res = []
    old = _sys.stdout
    _sys.stdout = io.StringIO()
    try:
        for pid in pids:
            try:
                code, c = run_property(pid, root, "quick", overrides=ov, quiet=True, write_evidence=False, known=[])
                res.append((pid, code, sorted({o.clause for o in c.violations()})[:6]))
            except SyntaxError:
                res.append((pid, 2, ["does not parse"]))
            except Exception as e:  # analyser exception on a variant: reported, never hidden
                res.append((pid, 2, ["%s: %s" % (type(e).__name__, e)]))
    finally:
        _sys.stdout = old
    return (kind, sid, "ran", res)


def run_corpora(root, pid, jobs=16):
    from concurrent.futures import ProcessPoolExecutor
    from .rules.total import _FILE_PROPS
    work = []
    sd = os.path.join(VERIF, "seeded")
    if os.path.isdir(sd):
        for sid in sorted(os.listdir(sd)):
            if sid.split("-")[0] == pid and os.path.exists(os.path.join(sd, sid, "patch.diff")):
                work.append(("seed", sid, root, [pid], os.path.join(sd, sid, "patch.diff")))
    rd = os.path.join(VERIF, "refactors")
    if os.path.isdir(rd):
        for sid in sorted(os.listdir(rd)):
            p = os.path.join(rd, sid, "patch.diff")
            if not os.path.exists(p):
                continue
            touched = {l[6:].strip() for l in open(p, encoding="utf-8", errors="replace") if l.startswith("+++ b/")}
            if any(pid in _FILE_PROPS.get(f, ()) for f in touched):
                work.append(("refactor", sid, root, [pid], p))
    if not work:
        return {"seeded_changes": 0, "refactorings": 0}
    with ProcessPoolExecutor(jobs) as ex:
        res = list(ex.map(_corpus_job, work, chunksize=2))
    seeds = [r for r in res if r[0] == "seed" and r[2] == "ran"]
    refs = [r for r in res if r[0] == "refactor" and r[2] == "ran"]
    return {
        "seeded_changes": len(seeds), "seeded_changes_reported": sum(1 for r in seeds if any(code == 1 for (_, code, _) in r[3])),
        "seeded_changes_not_reported": [r[1] for r in seeds if not any(code == 1 for (_, code, _) in r[3])],
        "seeded_changes_not_applicable_to_this_tree": [r[1] for r in res if r[0] == "seed" and r[2] == "n/a"],
        "refactorings": len(refs), "refactorings_silent": sum(1 for r in refs if all(code == 0 for (_, code, _) in r[3])),
        "refactorings_not_silent": [[r[1], [(p_, c_, cl) for (p_, c_, cl) in r[3] if c_ != 0]] for r in refs if not all(code == 0 for (_, code, _) in r[3])],
        "refactorings_not_applicable_to_this_tree": [r[1] for r in res if r[0] == "refactor" and r[2] == "n/a"],
    }
