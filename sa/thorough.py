"""Thorough tier: the quick clauses, plus
 (a) the clauses of every sibling property of the same mechanism family (the mechanisms are shared:
     a broken dispatch lock is a C01, C04, C09 and C16 matter alike),
 (b) whole-package structural scans (reduce/arity duality, undeclared polling loops, bare excepts that
     swallow in anchored modules) - reported as obligations of clause <Cxx>.PKG-*,
 (c) a drift report against the frozen reference instance table (reference/instances.json): constructs
     that appeared / vanished since the table was frozen on the pinned (repaired) tree - evidence only,
 (d) the self-test corpus of the family evaluated on in-memory variants of the *current* tree -
     evidence only: it validates the checker, it never changes the verdict on /repo.
"""

import ast
import json
import os

from .core import call_name, calls_in, dotted, nodes_of_type, unparse, param_names, call_attr
from .report import VERIF

FAMILIES = [
    ["C01", "C04", "C09", "C16"],
    ["C02", "C05", "C06", "C07", "C08", "C11", "C12", "C18"],
    ["C03", "C13", "C14", "C19"],
    ["C10", "C20"],
    ["C15"],
    ["C17"],
]


def family_of(pid):
    for fam in FAMILIES:
        if pid in fam:
            return fam
    return [pid]


def reduce_arity(ctx):
    """Every __reduce__ in the non-vendored package returning (callable, args-tuple[, ...]) with an
    in-package callable passes as many positional values as the callable accepts."""
    n = 0
    for rel, mod in ctx.repo.modules.items():
        if "externals/cloudpickle" in rel:
            continue
        for q, fn in mod.funcs.items():
            if not q.endswith("__reduce__"):
                continue
            for r in nodes_of_type(fn, ast.Return):
                v = r.value
                if not (isinstance(v, ast.Tuple) and len(v.elts) >= 2):
                    continue
                callee, args = v.elts[0], v.elts[1]
                if isinstance(args, ast.Name):
                    d = [a for a in nodes_of_type(fn, ast.Assign) if args.id in [getattr(t, "id", None) for t in a.targets]]
                    args = d[0].value if len(d) == 1 else args
                if not isinstance(args, ast.Tuple):
                    continue
                fake = ast.Call(func=callee, args=[], keywords=[])
                fake._module = mod
                fake._parent = r
                callee._parent = fake
                targets = ctx.res.resolve_call(fake)
                for t in targets:
                    a = t.args
                    pos = [x.arg for x in a.posonlyargs + a.args]
                    if pos and pos[0] in ("self", "cls"):
                        pos = pos[1:]
                    n_req = len(pos) - len(a.defaults)
                    n_given = len(args.elts)
                    n += 1
                    ok = n_req <= n_given <= len(pos) or a.vararg is not None
                    ctx.check(ok, r, "%s -> %s: %d positional values for %d..%d parameters" % (q, t._qualname, n_given, n_req, len(pos)),
                              "%s passes %d values to %s, which takes %d..%d" % (q, n_given, t._qualname, n_req, len(pos)))
    ctx.floor(n, 2, "__reduce__ tuples resolved to in-package callables")


def polling_loops(ctx):
    """Informational inventory of every `while` in the package with its classification."""
    n = 0
    for rel, mod in ctx.repo.modules.items():
        if "externals/cloudpickle" in rel:
            continue
        for q, fn in mod.funcs.items():
            for lp in nodes_of_type(fn, ast.While):
                n += 1
                sleeps = any(call_name(c) in ("time.sleep", "sleep") for c in calls_in(lp))
                kind = "constant-true" if isinstance(lp.test, ast.Constant) else "sleep-polling" if sleeps else "data-driven"
                ctx.ok(lp, "while-loop inventory: %s::%s `while %s` (%s)" % (rel, q, unparse(lp.test, 60), kind))
    ctx.floor(n, 20, "while loops in the package")


def drift(ctx):
    """Compare the (clause, construct) pairs of this run with the frozen reference table."""
    p = os.path.join(VERIF, "reference", "instances.json")
    if not os.path.exists(p):
        return {"reference": "absent"}
    ref = json.load(open(p)).get(ctx.pid, [])
    now = sorted({(o.clause, o.key) for o in ctx.obs if not o.clause.endswith(("PKG-REDUCE", "PKG-LOOPS"))})
    refset = {tuple(x) for x in ref}
    nowset = set(now)
    return {
        "reference_instances": len(refset),
        "current_instances": len(nowset),
        "vanished_since_reference": sorted(refset - nowset)[:40],
        "new_since_reference": sorted(nowset - refset)[:40],
    }


def run_extras(ctx, pid, rules_loader):
    fam = family_of(pid)
    own = set(ctx.clauses_run)
    drift_report = drift(ctx)  # against the property's own quick clauses, before the extras are added
    # (a) sibling clauses: replay each sibling's run() but skip clauses already evaluated
    orig_run = ctx.run

    def run_once(clause_id, family, fn, *a, **kw):
        if clause_id in own:
            return
        own.add(clause_id)
        orig_run(clause_id, family, fn, *a, **kw)
    ctx.run = run_once
    try:
        for sib in fam:
            if sib == pid:
                continue
            m = rules_loader(sib)
            if m is not None:
                m.run(ctx)
    finally:
        ctx.run = orig_run
    # (b) package scans
    ctx.run(pid + ".PKG-REDUCE", "R-DUAL", reduce_arity)
    ctx.run(pid + ".PKG-LOOPS", "R-PROGRESS", polling_loops)
    extra = {"family": fam, "drift": drift_report}
    return extra


def run_selftest(root, fam):
    from . import selftest
    corpus, res, wall = selftest.run_corpus(root, only=set(fam))
    out = {"variants": len(res), "ok": sum(1 for r in res if r[1] == "ok"), "stale": sum(1 for r in res if r[1] == "stale"),
           "failed": [r for r in res if r[1] == "FAIL"], "wall_s": round(wall, 2),
           "must_fire": sum(1 for v in corpus if v["expect"].startswith("fire")), "must_stay_silent": sum(1 for v in corpus if v["expect"] == "silent")}
    return out
