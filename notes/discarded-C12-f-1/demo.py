"""C12 demo 1: a storage fault hit while the new source of a redefined
function is being persisted must not let later definitions read values
computed by the interrupted one.

History (one process, one cache directory, function id cmod/f):
  v1(1), v1(2)          -> cached
  define v2, v2(1)      -> the cache is wiped; the store refuses to create the
                           function directory (ENOSPC) at that precise moment
  v2(1), v2(2)          -> retried once the disk has room again
  define v3, v3(1), v3(2)
Every call must return what its own version computes.
"""

import errno
import os
import shutil
import sys
import tempfile
import warnings

sys.path.insert(0, os.getcwd())

from joblib import Memory  # noqa: E402
from joblib._store_backends import FileSystemStoreBackend  # noqa: E402

warnings.simplefilter("ignore")

tmp = tempfile.mkdtemp(prefix="c12f1-")


def define(version):
    """Define version `version` of cmod.f in its own source file."""
    src_dir = os.path.join(tmp, "src%d" % version)
    os.makedirs(src_dir)
    path = os.path.join(src_dir, "cmod.py")
    with open(path, "w") as fd:
        fd.write("def f(x):\n    return (%d, x)\n" % version)
    ns = {"__name__": "cmod"}
    with open(path) as fd:
        exec(compile(fd.read(), path, "exec"), ns)
    return ns["f"]


failures = []


def expect(what, got, wanted):
    if got != wanted:
        failures.append("%s returned %r, its code computes %r" % (what, got, wanted))


try:
    mem = Memory(os.path.join(tmp, "cache"), verbose=0)

    f1 = define(1)
    g1 = mem.cache(f1)
    expect("v1(1)", g1(1), (1, 1))
    expect("v1(2)", g1(2), (1, 2))

    f2 = define(2)
    g2 = mem.cache(f2)

    # Fault injection: the first creation of the function directory after
    # the wipe fails as on a full disk.
    real_create = FileSystemStoreBackend.create_location
    state = {"armed": True}

    def failing_create(self, location):
        if state["armed"] and location.endswith(os.path.join("cmod", "f")):
            state["armed"] = False
            raise OSError(errno.ENOSPC, os.strerror(errno.ENOSPC), location)
        return real_create(self, location)

    FileSystemStoreBackend.create_location = failing_create
    try:
        try:
            g2(1)
        except OSError as exc:
            if exc.errno != errno.ENOSPC:
                raise
        else:
            print("note: the injected fault was not reached")
    finally:
        FileSystemStoreBackend.create_location = real_create

    # The disk has room again: the caller retries.
    expect("v2(1)", g2(1), (2, 1))
    expect("v2(2)", g2(2), (2, 2))
    expect("v2(2) again", g2(2), (2, 2))

    f3 = define(3)
    g3 = mem.cache(f3)
    expect("v3(1)", g3(1), (3, 1))
    expect("v3(2)", g3(2), (3, 2))
    expect("v2(2) after v3", g2(2), (2, 2))
    expect("v3(2) again", g3(2), (3, 2))
finally:
    shutil.rmtree(tmp, ignore_errors=True)

if failures:
    print("PROPERTY BROKEN")
    for line in failures:
        print("  " + line)
    sys.exit(1)
print("ok")
