"""Witness for D-S4 (C11): a concurrent Memory.clear() removing a parent directory while the function
directory is being created (os.makedirs creates the parents one by one) makes Memory.cache(f) / a cached
call raise FileNotFoundError. The concurrent clear is replayed deterministically before the leaf mkdir.
Triage only."""
import os, shutil, tempfile, warnings
warnings.simplefilter("ignore")
from joblib import Memory

def f(x):
    return x + 1

loc = tempfile.mkdtemp(prefix="jl-wit-")
mem = Memory(loc, verbose=0)
root = os.path.join(loc, "joblib")
real_mkdir = os.mkdir
state = {"armed": True}
def racing_mkdir(path, *a, **k):
    # process B: Memory.clear() lands between the creation of the module directory and of the function directory
    if state["armed"] and os.path.basename(path) == "f":
        state["armed"] = False
        shutil.rmtree(os.path.dirname(path), ignore_errors=True)
    return real_mkdir(path, *a, **k)
os.mkdir = racing_mkdir
try:
    g = mem.cache(f)
    print("D-S4 ok" if g(1) == 2 else "D-S4 DEFECT wrong value")
except OSError as e:
    print("D-S4 DEFECT", type(e).__name__)
finally:
    os.mkdir = real_mkdir
