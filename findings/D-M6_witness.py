"""D-M6 (C12): func_code_info drops its memoised source when func.__code__ was swapped, but keeps the OLD code id on
record. Swapping A -> B -> A makes the ids match again, the source read for B is kept for A, and the value cached for B
is served under A's code.   exit 0 = the value of the code that is actually installed."""
import sys, tempfile, warnings
from joblib import Memory
warnings.simplefilter("ignore")
mem = Memory(tempfile.mkdtemp(prefix="dm6-"), verbose=0)

def A(x):
    return ("A", x)

def B(x):
    return ("B", x)

def f(x):
    return ("A", x)

g = mem.cache(f)
seen = []
for code, want in ((A.__code__, "A"), (B.__code__, "B"), (A.__code__, "A"), (B.__code__, "B")):
    f.__code__ = code
    got = g(1)
    seen.append((want, got))
bad = [(w, g_) for (w, g_) in seen if g_[0] != w]
for w, g_ in bad:
    print("code %s installed, cached function returned %r" % (w, g_))
print("OK" if not bad else "FAIL")
sys.exit(1 if bad else 0)
