"""D-P2 (C01): a pre_dispatch amount that evaluates to 0 (pre_dispatch=0, or an expression like 'n_jobs // 4' with
n_jobs < 4) makes Parallel return [] for a non-empty input: the caller thread dispatches nothing, so no completion
callback ever dispatches the rest.  exit 0 = results equal the sequential loop."""
import sys
from joblib import Parallel, delayed
bad = []
for backend in ("threading", "loky"):
    for pre in (0, "n_jobs // 4", "n_jobs/8"):
        got = Parallel(n_jobs=2, backend=backend, pre_dispatch=pre)(delayed(abs)(-i) for i in range(5))
        if got != [0, 1, 2, 3, 4]:
            bad.append((backend, pre, got))
for b in bad:
    print("WRONG RESULT backend=%s pre_dispatch=%r -> %r" % b)
print("OK" if not bad else "%d configurations lose their tasks" % len(bad))
sys.exit(1 if bad else 0)
