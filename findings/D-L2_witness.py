"""D-L2 (C10): after every loky worker has exited on its idle timeout, the manager thread waits with an empty list of worker
sentinels. ProcessPoolExecutor.submit wakes it BEFORE the new workers are spawned (`wakeup()` precedes
`_ensure_executor_running()`), so it goes back to wait() without the sentinels of the workers that run the new task.
If those workers die, nothing wakes the manager: the Parallel call hangs (or, if one worker survives, learns of the death
only when that worker's own idle timeout fires - 300 s by default).
The witness lets the workers of a first call idle out, submits ONE task and SIGKILLs every worker while it runs.
exit 0 = a worker-termination error within 10 s, 1 = the call is still blocked after 10 s."""
import os, signal, sys, threading, time
sys.path.insert(0, os.getcwd())
from joblib import Parallel, delayed
from joblib.externals.loky import reusable_executor

IDLE = 2


def sq(i):
    return i * i


def slow(i):
    time.sleep(30)
    return i


if __name__ == "__main__":
    kw = dict(n_jobs=2, idle_worker_timeout=IDLE)
    Parallel(**kw)(delayed(sq)(i) for i in range(4))
    ex = reusable_executor._executor
    t_end = time.time() + 30
    while ex._processes and time.time() < t_end:
        time.sleep(0.05)
    time.sleep(1.0)  # the manager thread is back in wait(), no worker left
    out = {}

    def target():
        try:
            out["r"] = Parallel(**kw)(delayed(slow)(i) for i in range(1))
        except BaseException as e:  # noqa
            out["e"] = type(e).__name__

    t = threading.Thread(target=target, daemon=True)
    t0 = time.time()
    t.start()
    time.sleep(1.5)                      # the single task is running in a freshly spawned worker
    victims = list(reusable_executor._executor._processes)
    for pid in victims:
        os.kill(pid, signal.SIGKILL)     # the fault: every worker dies abruptly
    t.join(10)
    blocked = t.is_alive()
    print("workers killed: %d, call still blocked after 10 s: %s, outcome: %s, latency %.1fs" % (len(victims), blocked, out, time.time() - t0))
    sys.stdout.flush()
    os._exit(1 if blocked or "e" not in out else 0)
