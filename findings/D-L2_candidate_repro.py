"""Side finding on the CLEAN tree (not one of the injected changes).

After all loky workers exited on idle timeout, the manager thread waits with an
empty sentinel list.  The next submit wakes it up *before* the new workers are
spawned (wakeup() precedes _ensure_executor_running() in submit), so it goes
back to wait() still without their sentinels.  If the re-spawned workers then
die, nothing wakes the manager thread: the death is only noticed when some
other event arrives (e.g. a surviving worker's own idle timeout), or never if
every worker died.

Usage: PYTHONPATH=<tree> python C10-f-clean-tree-finding.py [n_dying_tasks]
"""
import os, signal, sys, threading, time
sys.path.insert(0, os.getcwd())
from joblib import Parallel, delayed
from joblib.externals.loky import reusable_executor

IDLE = 4


def sq(i):
    return i * i


def die(i):
    time.sleep(0.5)
    os._exit(3)


if __name__ == "__main__":
    n_dying = int(sys.argv[1]) if len(sys.argv) > 1 else 1
    kw = dict(n_jobs=2, idle_worker_timeout=IDLE)
    Parallel(**kw)(delayed(sq)(i) for i in range(4))
    ex = reusable_executor._executor
    while ex._processes:
        time.sleep(0.05)
    time.sleep(1.0)  # let the manager thread go back to wait() with no worker
    out = {}

    def target():
        try:
            out["r"] = Parallel(**kw)(delayed(die)(i) for i in range(n_dying))
        except BaseException as e:  # noqa
            out["e"] = type(e).__name__

    t = threading.Thread(target=target, daemon=True)
    t0 = time.time()
    t.start()
    t.join(4 * IDLE)
    print(f"dying tasks={n_dying} blocked={t.is_alive()} outcome={out} "
          f"latency={time.time() - t0:.1f}s (task dies after 0.5s, idle timeout {IDLE}s)")
    for pid in list(getattr(reusable_executor._executor, "_processes", None) or {}):
        try:
            os.kill(pid, signal.SIGKILL)
        except OSError:
            pass
    os._exit(0)
