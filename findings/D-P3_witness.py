"""D-P3 (C04): with n_jobs=1 and verbose >= 10 a failing task does not surface as its own exception: the `finally` of
_get_sequential_output calls print_progress(), which reads self._pre_dispatch_amount - an attribute only the dispatching
path of __call__ sets - and the resulting AttributeError replaces the task's exception. exit 0 = the task's exception."""
import sys
from joblib import Parallel, delayed

def boom(i):
    if i == 1:
        raise ValueError("task %d failed" % i)
    return i

bad = []
for verbose in (0, 10, 60):
    try:
        Parallel(n_jobs=1, verbose=verbose)(delayed(boom)(i) for i in range(3))
        bad.append((verbose, "no exception"))
    except ValueError as e:
        if "task 1 failed" not in str(e):
            bad.append((verbose, repr(e)))
    except BaseException as e:
        bad.append((verbose, "%s: %s" % (type(e).__name__, e)))
for b in bad:
    print("WRONG EXCEPTION verbose=%s -> %s" % b)
print("OK" if not bad else "FAIL")
sys.exit(1 if bad else 0)
