"""Witness for D-H1 (C08, C02, C06): joblib.hash(frozenset of str) depends on PYTHONHASHSEED. Triage only."""
import os, subprocess, sys
code = "import joblib; print(joblib.hash(frozenset(['a','b','c','dd','eee'])), joblib.hash({'a','b','c','dd','eee'}), joblib.hash(frozenset([1,2,3])) == joblib.hash({1,2,3}))"
outs = set()
for seed in "0123":
    env = dict(os.environ, PYTHONHASHSEED=seed)
    outs.add(subprocess.check_output([sys.executable, "-c", code], env=env).decode().strip())
for o in sorted(outs): print(o)
digests = {o.split()[0] for o in outs}
print("DEFECT: %d different digests of one frozenset over 4 hash seeds" % len(digests) if len(digests) > 1 else "ok")
print("set/frozenset collide!" if any(o.split()[2] == "True" for o in outs) else "set and frozenset differ")
