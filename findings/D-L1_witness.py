"""Witness for D-L1 (C10): a worker that dies during the start-up of a resized reusable executor makes
_ReusablePoolExecutor._resize spin forever (holding the executor locks). Triage only; 20 s watchdog."""
import os, signal, sys, threading, time
from joblib.externals.loky import reusable_executor as re_
from joblib.externals.loky.reusable_executor import get_reusable_executor, _ReusablePoolExecutor

def main():
    ex = get_reusable_executor(max_workers=2, timeout=60)
    assert ex.submit(pow, 2, 3).result() == 8
    orig = _ReusablePoolExecutor._adjust_process_count
    def adjust_then_kill(self):
        before = set(self._processes)
        orig(self)
        new = [p for pid, p in self._processes.items() if pid not in before]
        if new:
            os.kill(new[0].pid, signal.SIGKILL)          # the fault: a fresh worker dies during start-up
            new[0].join(5)
    _ReusablePoolExecutor._adjust_process_count = adjust_then_kill
    done = []
    def resize():
        try:
            get_reusable_executor(max_workers=3, timeout=60)
            done.append("returned")
        except BaseException as e:
            done.append("raised %s" % type(e).__name__)
    t = threading.Thread(target=resize, daemon=True); t.start(); t.join(20)
    _ReusablePoolExecutor._adjust_process_count = orig
    if t.is_alive():
        print("DEFECT: get_reusable_executor still spinning in _resize after 20 s"); sys.stdout.flush(); os._exit(1)
    print("ok:", done[0])
    # the following call gets healthy workers
    try:
        print("next call:", get_reusable_executor(max_workers=3, timeout=60).submit(pow, 2, 4).result(timeout=30))
    except Exception as e:
        print("next call raised", type(e).__name__, "- one more:", get_reusable_executor(max_workers=3, timeout=60).submit(pow, 2, 4).result(timeout=30))
    os._exit(0)

if __name__ == "__main__":
    main()
