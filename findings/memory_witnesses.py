"""Witnesses for the Memory-family defects D-M1, D-M2, D-M3, D-S1, D-S2, D-S3.
Triage only - not part of any check. Each prints `<id> DEFECT ...` or `<id> ok`.
Concurrent actors are replayed deterministically at the racing file-system call."""
import os, shutil, sys, tempfile, warnings, builtins
warnings.simplefilter("ignore")
from joblib import Memory, expires_after
import joblib._store_backends as sb
import joblib.disk as disk

def fresh():
    return tempfile.mkdtemp(prefix="jl-wit-")

def f(x):
    return x + 1

def entry_dirs(loc):
    out = []
    for dp, dn, fn in os.walk(loc):
        if "output.pkl" in fn:
            out.append(dp)
    return out

# D-M1: entry with output.pkl but no metadata.json (kill between the two renames) + expires_after
loc = fresh(); mem = Memory(loc, verbose=0)
g = mem.cache(f, cache_validation_callback=expires_after(days=1)); g(1)
for d in entry_dirs(loc):
    os.remove(os.path.join(d, "metadata.json"))
try:
    g2 = Memory(loc, verbose=0).cache(f, cache_validation_callback=expires_after(days=1))
    print("D-M1 ok" if g2(1) == 2 else "D-M1 DEFECT wrong value")
except KeyError as e:
    print("D-M1 DEFECT KeyError", e)

# D-M2: the process is killed in the middle of the write of the function's source code
import joblib.memory as jm; jm._FUNCTION_HASHES.clear()
loc = fresh(); mem = Memory(loc, verbose=0)
class Killed(BaseException):
    pass
real_open0 = sb.FileSystemStoreBackend._open_item
class TornFile:
    def __init__(self, fobj): self.f = fobj
    def __enter__(self): return self
    def __exit__(self, *a): self.f.close(); return False
    def write(self, data):
        self.f.write(data[:13]); self.f.flush(); raise Killed()          # kill -9 after 13 bytes
def killing_open(path, mode="r", *a, **k):
    fobj = real_open0(path, mode, *a, **k)
    if "func_code.py" in str(path) and "w" in mode:
        return TornFile(fobj)
    return fobj
sb.FileSystemStoreBackend._open_item = staticmethod(killing_open)
try:
    mem.cache(f)(1)
except Killed:
    pass
finally:
    sb.FileSystemStoreBackend._open_item = staticmethod(real_open0)
jm._FUNCTION_HASHES.clear()
try:
    print("D-M2 ok" if Memory(loc, verbose=0).cache(f)(1) == 2 else "D-M2 DEFECT wrong value")
except ValueError as e:
    print("D-M2 DEFECT after a kill during the write of func_code.py: ValueError", e)

# D-M3: older live definition served the new definition's value
loc = fresh(); mem = Memory(loc, verbose=0)
ns = {}
exec("def h(x):\n    return ('v1', x)\n", ns); h1 = ns["h"]; h1.__module__ = "wit"
g1 = mem.cache(h1); g1(1)
exec("def h(x):\n    return ('v2', x)\n", ns); h2 = ns["h"]; h2.__module__ = "wit"
g2 = mem.cache(h2); g2(1)
r = g1(1)
print("D-M3 ok" if r == ("v1", 1) else "D-M3 DEFECT older definition got %r" % (r,))

# D-S1: concurrent Memory.clear() lands between the existence check and the open of func_code.py
loc = fresh(); mem = Memory(loc, verbose=0); g = mem.cache(f); g(1)
real_open = sb.FileSystemStoreBackend._open_item
def racing_open(path, mode="r", *a, **k):
    if str(path).endswith("func_code.py") and "w" in mode:
        shutil.rmtree(os.path.dirname(path), ignore_errors=True)      # process B: clear()
    return real_open(path, mode, *a, **k)
sb.FileSystemStoreBackend._open_item = staticmethod(racing_open)
jm._FUNCTION_HASHES.clear()
for dp, dn, fn in os.walk(loc):
    if "func_code.py" in fn:
        os.remove(os.path.join(dp, "func_code.py"))                   # forces the rewrite path
try:
    print("D-S1 ok" if mem.cache(f)(1) == 2 else "D-S1 DEFECT wrong value")
except OSError as e:
    print("D-S1 DEFECT", type(e).__name__)
finally:
    sb.FileSystemStoreBackend._open_item = staticmethod(real_open)

# D-S2: two concurrent Memory.clear(): B removes the sub-directory between A's isdir and A's listdir
loc = fresh(); mem = Memory(loc, verbose=0); g = mem.cache(f); g(1)
real_listdir = os.listdir
def racing_listdir(p):
    if os.path.dirname(str(p)).endswith("joblib") and os.path.isdir(p):
        shutil.rmtree(p, ignore_errors=True)                          # process B
    return real_listdir(p)
disk.os.listdir = racing_listdir
try:
    mem.clear(warn=False); print("D-S2 ok")
except OSError as e:
    print("D-S2 DEFECT", type(e).__name__)
finally:
    disk.os.listdir = real_listdir

# D-S3: mmap_mode set, B clears right after A published its entry; A still holds the computed value
loc = fresh(); mem = Memory(loc, verbose=0, mmap_mode="r"); g = mem.cache(f)
real_persist = jm.MemorizedFunc._persist_input
def racing_persist(self, *a, **k):
    out = real_persist(self, *a, **k)
    shutil.rmtree(os.path.join(loc, "joblib"), ignore_errors=True)    # process B: clear()
    return out
jm.MemorizedFunc._persist_input = racing_persist
try:
    print("D-S3 ok" if g(1) == 2 else "D-S3 DEFECT wrong value")
except (KeyError, OSError) as e:
    print("D-S3 DEFECT", type(e).__name__)
finally:
    jm.MemorizedFunc._persist_input = real_persist
