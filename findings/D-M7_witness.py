"""D-M7 (C05, C12): a kill while the function directory is being wiped after a source change can leave the results of the
OLD source without func_code.py (shutil.rmtree removes the entries of the directory in scandir order, which the OS is
free to choose: func_code.py may go first). The next process finds "no stored source", labels the directory with the
NEW source without wiping it, and from then on serves the old results as valid.
The witness forces that directory order (func_code.py listed first - an order the OS may produce) and kills the
process right after func_code.py is unlinked.
exit 0 = property holds, 1 = a value computed by the old source was served."""
import os, subprocess, sys, tempfile, textwrap
work = tempfile.mkdtemp(prefix="dm7-")
mod = os.path.join(work, "dm7mod.py")
driver = textwrap.dedent('''
    import os, sys
    sys.path.insert(0, %r)
    if sys.argv[1] == "kill":
        real_scandir, real_unlink = os.scandir, os.unlink
        class Listing:
            def __init__(self, it): self.it = it; self.entries = sorted(it, key=lambda e: e.name != "func_code.py")
            def __iter__(self): return iter(self.entries)
            def __enter__(self): return self
            def __exit__(self, *a): self.it.close()
            def close(self): self.it.close()
        os.scandir = lambda *a, **k: Listing(real_scandir(*a, **k))
        def unlink(path, *a, **k):
            real_unlink(path, *a, **k)
            if os.path.basename(os.fspath(path)) == "func_code.py":
                os._exit(9)          # the kill: right after func_code.py went, before the entries
        os.unlink = unlink
    from joblib import Memory
    import dm7mod
    g = Memory(%r, verbose=0).cache(dm7mod.f)
    print([g(int(a)) for a in sys.argv[2:]])
''') % (work, os.path.join(work, "cache"))
open(os.path.join(work, "driver.py"), "w").write(driver)
env = dict(os.environ, PYTHONPATH=os.getcwd() + os.pathsep + os.environ.get("PYTHONPATH", ""))
def run(src, how, *args):
    open(mod, "w").write(src)
    r = subprocess.run([sys.executable, os.path.join(work, "driver.py"), how] + list(args), capture_output=True, text=True, env=env)
    return r.returncode, r.stdout.strip(), r.stderr.strip()[-300:]
V1 = "def f(x):\n    return ('v1', x)\n"
V2 = "def f(x):\n    return ('v2', x)\n"
print("v1 f(1), f(2)            ->", run(V1, "plain", "1", "2"))
code, out, err = run(V2, "kill", "1")
print("v2 f(1), killed in wipe  -> exit", code, out, err)
if code != 9:
    print("the wipe was not interrupted at the intended point (exit %s): nothing shown" % code); sys.exit(0)
left = sorted(os.listdir(os.path.join(work, "cache", "joblib", "dm7mod", "f")))
print("function directory after the kill:", left)
code, out, err = run(V2, "plain", "1", "2")
print("v2 f(1), f(2)            ->", out, err)
ok = out == "[('v2', 1), ('v2', 2)]"
print("OK" if ok else "VALUE OF OTHER SOURCE SERVED after a kill during the wipe: %s" % out)
sys.exit(0 if ok else 1)
