"""D-P4 (C04, C01): an exception raised by the input iterator is turned into an error tracker by dispatch_one_batch, but it
is RAISED only inside the retrieval loop - and `_wait_retrieval()` answered False when nothing was iterating and no task
was in flight. With pre_dispatch='all' (the caller consumes the whole input itself) an iterator that raises inside the
first slice made Parallel return [] - silently dropping the error and the tasks sliced before it.
exit 0 = the iterator's exception surfaces for every combination, 1 = some call returned a list."""
import os, sys
sys.path.insert(0, os.getcwd())
from joblib import Parallel, delayed


def gen(fail_at, n=6):
    for i in range(n):
        if i == fail_at:
            raise ValueError("iterator broke at %d" % i)
        yield delayed(abs)(i)


bad = 0
for backend in ("threading", "loky"):
    for pre in ("all", "2*n_jobs", 1):
        for fail_at in (0, 1, 3):
            try:
                r = Parallel(n_jobs=2, backend=backend, pre_dispatch=pre)(gen(fail_at))
                print(backend, pre, fail_at, "RETURNED", r)
                bad += 1
            except ValueError as e:
                pass
print("calls that returned instead of raising:", bad)
sys.exit(1 if bad else 0)
