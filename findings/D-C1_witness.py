"""Witness for D-C1 (C17): require='sharedmem' given by parallel_config is ignored
by Parallel.__init__'s own shared-memory check when a backend is passed explicitly.
Triage only. Prints DEFECT on the defective tree."""
from joblib import Parallel, parallel_config
try:
    Parallel(n_jobs=2, backend="loky", require="sharedmem")
    print("explicit pair accepted ?!")
except ValueError as e:
    print("explicit pair:", e)
with parallel_config(require="sharedmem"):
    try:
        p = Parallel(n_jobs=2, backend="loky")
        print("context require + explicit backend ->", type(p._backend).__name__)
        print("DEFECT" if not getattr(p._backend, "supports_sharedmem", False) else "ok")
    except ValueError as e:
        print("context require + explicit backend:", e)
        print("ok")
