"""D-S5 (C11): _check_previous_func_code tests `self.func in _FUNCTION_HASHES` and then reads `_FUNCTION_HASHES[self.func]`.
Another thread running Memory.clear() (which empties the table) between the two makes the cached call raise KeyError.
The interleaving is forced at exactly that point (Memory.clear() of a second thread runs inside _hash_func, which is
evaluated between the membership test and the subscript).  exit 0 = value returned, 1 = KeyError escaped."""
import sys, tempfile, threading
from joblib import Memory
import joblib.memory as jm

mem = Memory(tempfile.mkdtemp(prefix="ds5-"), verbose=0)

def f(x):
    return x + 1

g = mem.cache(f)
assert g(1) == 2          # registers f in the in-memory table
orig = jm.MemorizedFunc._hash_func
fired = []

def hash_func_with_concurrent_clear(self):
    if not fired:
        fired.append(1)
        t = threading.Thread(target=mem.clear, kwargs={"warn": False})
        t.start(); t.join()           # "another user" clears the cache right now
    return orig(self)

jm.MemorizedFunc._hash_func = hash_func_with_concurrent_clear
try:
    v = g(1)
except KeyError as e:
    print("KeyError escaped from the cached call:", repr(e)[:80])
    sys.exit(1)
print("OK", v)
sys.exit(0 if v == 2 else 1)
