"""D-M5 (C12): MemorizedFunc.call() persists its result without checking the stored source first. A result computed by
the edited function lands in the directory still labelled with the previous source; a process that runs the previous
source (a revert, an older checkout sharing the cache) then gets that value as a valid hit.
exit 0 = property holds, 1 = a value computed by different source code was served."""
import os, subprocess, sys, tempfile, textwrap
work = tempfile.mkdtemp(prefix="dm5-")
mod = os.path.join(work, "dm5mod.py")
driver = textwrap.dedent('''
    import sys
    sys.path.insert(0, %r)
    from joblib import Memory
    import dm5mod
    g = Memory(%r, verbose=0).cache(dm5mod.f)
    print(g.call(1) if sys.argv[1] == "call" else g(1))
''') % (work, os.path.join(work, "cache"))
open(os.path.join(work, "driver.py"), "w").write(driver)
env = dict(os.environ, PYTHONPATH=os.getcwd() + os.pathsep + os.environ.get("PYTHONPATH", ""))
def run(src, how):
    open(mod, "w").write(src)
    r = subprocess.run([sys.executable, os.path.join(work, "driver.py"), how], capture_output=True, text=True, env=env)
    return r.stdout.strip(), r.stderr.strip()[-300:]
V1 = "def f(x):\n    return ('v1', x)\n"
V2 = "def f(x):\n    return ('v2', x)\n"
print("v1 g(1)      ->", run(V1, "get"))
print("v2 g.call(1) ->", run(V2, "call"))
out, err = run(V1, "get")
print("v1 g(1)      ->", out, err)
ok = out == "('v1', 1)"
print("OK" if ok else "VALUE OF OTHER SOURCE SERVED: the v1 function returned %s" % out)
sys.exit(0 if ok else 1)
