"""D-M4 (C12): the in-memory table of validated functions (_FUNCTION_HASHES) is keyed by the function only, not by the
store. A function cached in two Memory locations in one process is validated against location A's func_code.py and
then trusted in location B, where func_code.py is never written. In a later process, after the function's source has
changed, location B finds no func_code.py, writes the NEW source without wiping the entries computed by the OLD source,
and from then on serves those old values.   exit 0 = property holds, 1 = stale value served.
usage: python D-M4_witness.py   (joblib importable from the current directory / PYTHONPATH)"""
import os, subprocess, sys, tempfile, textwrap
work = tempfile.mkdtemp(prefix="dm4-")
mod = os.path.join(work, "dm4mod.py")
driver = textwrap.dedent('''
    import sys
    sys.path.insert(0, %r)
    from joblib import Memory
    import dm4mod
    a = Memory(%r, verbose=0); b = Memory(%r, verbose=0)
    phase = sys.argv[1]
    if phase == "1":
        ga = a.cache(dm4mod.f); ga(1)          # validates f against A's func_code.py and registers it in memory
        gb = b.cache(dm4mod.f); print(gb(2))   # trusted in B through the in-memory table
    else:
        gb = b.cache(dm4mod.f)
        gb(5)                                  # first call of the new process in B
        print(gb(2))                           # must be computed by the NEW source
''') % (work, os.path.join(work, "A"), os.path.join(work, "B"))
open(os.path.join(work, "driver.py"), "w").write(driver)
env = dict(os.environ, PYTHONPATH=os.getcwd() + os.pathsep + os.environ.get("PYTHONPATH", ""))
open(mod, "w").write("def f(x):\n    return x * 2\n")
r1 = subprocess.run([sys.executable, os.path.join(work, "driver.py"), "1"], capture_output=True, text=True, env=env)
open(mod, "w").write("def f(x):\n    return x * 3\n")
r2 = subprocess.run([sys.executable, os.path.join(work, "driver.py"), "2"], capture_output=True, text=True, env=env)
print("session 1:", r1.stdout.strip(), r1.stderr.strip()[-200:])
print("session 2:", r2.stdout.strip(), r2.stderr.strip()[-200:])
has_code = os.path.exists(os.path.join(work, "B", "joblib", "dm4mod", "f", "func_code.py"))
ok = r2.stdout.strip() == "6"
print("OK" if ok else "STALE VALUE SERVED: f(2) under `x * 3` returned %s" % r2.stdout.strip())
sys.exit(0 if ok else 1)
