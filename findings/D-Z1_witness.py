"""Witness for D-Z1 (C14, C13): a valid zlib/gzip joblib file followed by extra bytes makes load() spin forever.
Triage only. Each case runs in a subprocess with a 5 s watchdog."""
import subprocess, sys
code = r'''
import io, joblib, sys
buf = io.BytesIO(); joblib.dump({"a": list(range(50))}, buf, compress=(sys.argv[1], 3))
try:
    obj = joblib.load(io.BytesIO(buf.getvalue() + b"x"))
    print("returned", obj == {"a": list(range(50))})
except Exception as e:
    print("raised", type(e).__name__)
'''
bad = 0
for m in ("zlib", "gzip", "bz2", "lzma", "xz"):
    try:
        out = subprocess.run([sys.executable, "-c", code, m], capture_output=True, timeout=5, text=True).stdout.strip()
    except subprocess.TimeoutExpired:
        out = "HANGS (killed after 5 s)"; bad += 1
    print("%-5s %s" % (m, out))
print("DEFECT" if bad else "ok")
