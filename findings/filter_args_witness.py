"""Witnesses for D-FA1/2/3 (C07, C02, C06): filter_args vs. what Python binds. Triage only."""
import inspect, itertools, sys
from joblib.func_inspect import filter_args

def f1(a, /, b): pass
def f2(*, a=1, b): pass
def f2b(*, a=1, b=2, c): pass
def f3(a, *args, k=1): pass

def show(tag, fn, args, kwargs, expect):
    try:
        got = filter_args(fn, [], args, kwargs)
    except Exception as e:
        got = "%s: %s" % (type(e).__name__, str(e).splitlines()[0])
    print("%s %s%s -> %r  %s" % (tag, fn.__name__, inspect.signature(fn), got, "ok" if got == expect else "DEFECT (Python binds %r)" % (expect,)))
    return got == expect

ok = True
ok &= show("D-FA1", f1, (1, 2), {}, {"a": 1, "b": 2})
ok &= show("D-FA1", f1, (1, 3), {}, {"a": 1, "b": 3})
ok &= show("D-FA2", f2, (), {"b": 2}, {"a": 1, "b": 2})
ok &= show("D-FA2", f2b, (), {"a": 9, "c": 0}, {"a": 9, "b": 2, "c": 0})
ok &= show("D-FA3", f3, (1, 2, 3), {}, {"a": 1, "k": 1, "*": [2, 3]})

# exhaustive agreement with Signature.bind for signatures of <= 4 parameters
KINDS = ["po", "pok", "var", "kwo", "varkw"]
def signatures(n):
    names = "abcd"
    for kinds in itertools.product(KINDS, repeat=n):
        order = [KINDS.index(k) for k in kinds]
        if order != sorted(order) or kinds.count("var") > 1 or kinds.count("varkw") > 1:
            continue
        for dflt in itertools.product([False, True], repeat=n):
            if any(d and k in ("var", "varkw") for d, k in zip(dflt, kinds)):
                continue
            parts, seen_po, slash_done, star_done = [], False, False, False
            for i, (k, d) in enumerate(zip(kinds, dflt)):
                nm = names[i]
                if k != "po" and seen_po and not slash_done:
                    parts.append("/"); slash_done = True
                if k == "po": seen_po = True
                if k == "kwo" and "var" not in kinds and not star_done:
                    parts.append("*"); star_done = True
                parts.append({"po": nm, "pok": nm, "var": "*" + nm, "kwo": nm, "varkw": "**" + nm}[k] + ("=%d" % (10 + i) if d else ""))
            if seen_po and not slash_done: parts.append("/")
            src = "def g(%s): pass" % ", ".join(parts)
            try:
                ns = {}; exec(src, ns)
            except SyntaxError:
                continue
            yield ns["g"], kinds
n_calls = n_bad = 0
for n in range(0, 5):
    for g, kinds in signatures(n):
        sig = inspect.signature(g)
        names = list(sig.parameters)
        for npos in range(0, 4):
            for kwset in itertools.chain.from_iterable(itertools.combinations(names + ["zz"], r) for r in range(0, 3)):
                args = tuple(range(1, npos + 1)); kwargs = {k: 100 + i for i, k in enumerate(kwset)}
                try:
                    ba = sig.bind(*args, **kwargs); ba.apply_defaults()
                except TypeError:
                    continue
                exp = {}
                for nm, v in ba.arguments.items():
                    k = sig.parameters[nm].kind
                    if k is inspect.Parameter.VAR_POSITIONAL: exp["*"] = list(v)
                    elif k is inspect.Parameter.VAR_KEYWORD: exp["**"] = dict(v)
                    else: exp[nm] = v
                n_calls += 1
                try:
                    got = filter_args(g, [], args, kwargs)
                except Exception as e:
                    got = type(e).__name__
                if got != exp:
                    n_bad += 1
print("enumeration: %d valid calls, %d disagreements with Signature.bind" % (n_calls, n_bad))
sys.exit(0 if ok and n_bad == 0 else 1)
