"""Witness for D-P1 (C04/C01): a look-ahead batch of an aborted call leaks into
the next call of the same Parallel object.  Triage only - not part of any check.
Run: /venv/bin/python findings/D-P1_witness.py   (prints LEAK on the defective tree)
"""
import threading, time
from joblib import Parallel, delayed, parallel_config, register_parallel_backend
from joblib._parallel_backends import ThreadingBackend

class Slow(ThreadingBackend):
    """Public extension API: a backend whose batch-size estimate is slow once."""
    calls = 0
    def compute_batch_size(self):
        Slow.calls += 1
        if Slow.calls == 2:
            time.sleep(0.5)      # lets the failing task land while batches sit in the look-ahead queue
        return 1

register_parallel_backend("slow", Slow)

def boom(i):
    if i == 0:
        time.sleep(0.1)
        raise ValueError("task 0")
    return 100 + i

def ok(i):
    return i

with parallel_config(backend="slow"):
    p = Parallel(n_jobs=3, batch_size="auto", pre_dispatch=9)
    try:
        p(delayed(boom)(i) for i in range(30))
    except ValueError:
        pass
    out = p(delayed(ok)(i) for i in range(4))
print(out)
print("LEAK" if out != [0, 1, 2, 3] else "clean")
