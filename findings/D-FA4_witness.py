"""Witness for D-FA4 (C07, C02): a keyword named like the instance parameter replaces the instance of a bound
method in filter_args' mapping. Reported by an independent sub-agent while seeding C07; triage only."""
from joblib.func_inspect import filter_args
class K:
    def m(self, **kw): return kw
a, b = K(), K()
ma, mb = filter_args(a.m, [], (), {"self": 3}), filter_args(b.m, [], (), {"self": 3})
print(ma)
ok = ma.get("self") is a and ma.get("**") == {"self": 3} and mb.get("self") is b
print("ok" if ok else "DEFECT: the instance is lost; a.m(self=3) and b.m(self=3) get the same canonical mapping")
