"""Witness for D-N1 (C15): n_jobs=0 is accepted (resolved to 1) by the multiprocessing
backend on its nested/daemon paths, while every sibling raises ValueError. Triage only."""
import threading
from joblib._parallel_backends import MultiprocessingBackend, LokyBackend, ThreadingBackend
out = {}
def probe():
    for cls in (MultiprocessingBackend, LokyBackend, ThreadingBackend):
        try:
            out[cls.__name__] = cls(nesting_level=1).effective_n_jobs(0)
        except ValueError as e:
            out[cls.__name__] = "ValueError"
t = threading.Thread(target=probe); t.start(); t.join()
print(out)
print("DEFECT" if out["MultiprocessingBackend"] != "ValueError" else "ok")
